//! Hunt for violations of property C07 (expression evaluation).
//! One `#[test]` per finding; each FAILS on the unchanged code.
//! Run: CARGO_TARGET_DIR=/tmp/wh-C07/target cargo test --offline -p conformance-tests --test hunt
//! (the two `fuzz_*` tests at the bottom are ignored exploration aids:
//!  add `-- --ignored --nocapture` to run them)
#![allow(dead_code)]

use bladeink::story::Story;
use bladeink_compiler::Compiler;

/// Compile + play `src` on a helper thread; a story that never returns from
/// `cont()` is reported as "<HANG>" instead of blocking the test run.
fn play(src: &str) -> String {
    let (tx, rx) = std::sync::mpsc::channel();
    let src = src.to_string();
    std::thread::spawn(move || {
        let _ = tx.send(run_prog(&src));
    });
    rx.recv_timeout(std::time::Duration::from_secs(10))
        .unwrap_or_else(|_| "<HANG>".to_string())
}

// ---------------------------------------------------------------- finding 1
// `{x || y}` on a text line is an expression (inklecate tries InnerExpression
// before InnerSequence). Here every top-level '|' splits the braces into a
// sequence, so the *text of the left operand* is printed.
#[test]
fn finding1_inline_or_expression_is_compiled_as_a_sequence() {
    assert_eq!(play("{false || true}\n"), "true\n");
}

#[test]
fn finding1b_inline_or_expression_over_variables() {
    assert_eq!(play("VAR i = 7\n{i > 100 || i < 10}\n"), "true\n");
}

// same classifier, other symptom: a ':' (or '|') inside a string literal
#[test]
fn finding1c_string_literal_with_colon_inside_braces() {
    assert_eq!(play("VAR s = \"abc\"\n{s == \"a:b\"}\n"), "false\n");
}

// ---------------------------------------------------------------- finding 2
// A qualified list item `List.item` used as an expression is a list value.
// It is compiled to a read count (`CNT?`) and evaluates to 0.
#[test]
fn finding2_qualified_list_item_reference_evaluates_to_zero() {
    assert_eq!(play("LIST L = a, b, c\n{L.b}\n"), "b\n");
}

#[test]
fn finding2b_qualified_list_item_in_operators_and_var_initialiser() {
    assert_eq!(
        play("LIST L = a, b, c\nVAR v = L.a\nVAR ab = (a, b)\n{v} {LIST_VALUE(L.c)} {ab ? L.a} {ab + L.c}\n"),
        "a 3 true a, b, c\n"
    );
}

// ---------------------------------------------------------------- finding 3
// A list emptied by subtraction / LIST_RANGE keeps the origins of the list it
// was derived from (reference: InkList copy constructor and ListWithSubRange
// take `originNames`, which for a non-empty list are the origins of its items).
#[test]
fn finding3_list_emptied_by_subtraction_forgets_its_origin() {
    assert_eq!(play("LIST L = a, b, c\nVAR v = (a, b)\n{LIST_ALL(v - v)}\n"), "a, b, c\n");
}

#[test]
fn finding3b_empty_list_range_forgets_its_origin() {
    assert_eq!(
        play("LIST L = a, b, c\nVAR v = (a, b)\n{LIST_INVERT(LIST_RANGE(v, 3, 3))}\n"),
        "a, b, c\n"
    );
}

// stale *declared* origin wins over the origin of the items actually held
#[test]
fn finding3c_stale_initial_origin_survives_in_copies() {
    assert_eq!(
        play("LIST L = a, b, c\nLIST N = p, q\nVAR v = (a, b)\n{LIST_ALL((N() + v) - v)}\n"),
        "a, b, c\n"
    );
}

// ---------------------------------------------------------------- finding 4
// Binary operator precedence differs from the reference compiler's table
// (&& || : 1;  == != < > <= >= : 2;  ? !? ^ : 3;  + : 4;  - : 5;  * : 6;  / : 7;  % : 8,
//  precedence climbing, equal precedence associates to the left).
#[test]
fn finding4_precedence_division_binds_tighter_than_multiplication() {
    // 2 * (3 / 4)
    assert_eq!(play("~ temp r = 2 * 3 / 4\n{r}\n"), "0\n");
}

#[test]
fn finding4b_precedence_subtraction_binds_tighter_than_addition() {
    // (a) + ((b) - (a))   and   "a" + (2 - 1)
    assert_eq!(play("LIST L = a, b, c\n~ temp r = (a) + (b) - (a)\n{r}\n"), "a, b\n");
    assert_eq!(play("~ temp r = \"a\" + 2 - 1\n{r}\n"), "a1\n");
}

#[test]
fn finding4c_precedence_and_or_are_equal_and_left_associative() {
    // (true || false) && false
    assert_eq!(play("~ temp r = true || false && false\n{r}\n"), "false\n");
}

// ---------------------------------------------------------------- finding 5
// `L()` is the empty list that knows its origin L. Assigning it to a variable
// whose current value is an empty list without origins erases that origin.
#[test]
fn finding5_assigning_typed_empty_list_over_untyped_empty_list_loses_origin() {
    assert_eq!(play("LIST L = a, b, c\nVAR v = ()\n~ v = L()\n{LIST_ALL(v)}\n"), "a, b, c\n");
}

#[test]
fn finding5b_same_for_temporaries() {
    assert_eq!(
        play("LIST L = a, b, c\n~ temp w = ()\n~ w = L()\n{LIST_INVERT(w)}\n"),
        "a, b, c\n"
    );
}

// ---------------------------------------------------------------- finding 6
// A condition whose text ends in "()" is compiled as a call of a function
// named after the *whole* text before "()": {"f()":"not z"}. The story then
// never returns from cont().
#[test]
fn finding6_condition_ending_in_call_is_compiled_as_bogus_function_call() {
    assert_eq!(
        play("{not z(): yes|no}\n=== function z()\n~ return 0\n"),
        "yes\n"
    );
}

#[test]
fn finding6b_typed_empty_list_as_condition() {
    assert_eq!(play("LIST L = a, b, c\n{L(): yes|no}\n"), "no\n");
}

// ---------------------------------------------------------------- finding 7 (minor)
// LIST items may be given negative values (inklecate parses them with ParseInt).
#[test]
fn finding7_negative_list_item_values_are_rejected() {
    assert_eq!(play("LIST N = p = -1, q, r\n{LIST_VALUE(q)} {LIST_VALUE(p)} {q - 1}\n"), "0 -1 p\n");
}

fn run_prog(src: &str) -> String {
    let src = src.to_string();
    let r = std::panic::catch_unwind(move || {
        let json = match Compiler::new().compile(&src) {
            Ok(j) => j,
            Err(e) => return format!("<compile error: {e:?}>"),
        };
        let mut story = match Story::new(&json) {
            Ok(s) => s,
            Err(e) => return format!("<load error: {e}>"),
        };
        let mut out = String::new();
        let mut n = 0;
        while story.can_continue() && n < 200 {
            n += 1;
            match story.cont() {
                Ok(l) => out.push_str(&l),
                Err(e) => {
                    out.push_str(&format!("<runtime error: {e}>"));
                    return out;
                }
            }
        }
        if story.has_error() {
            out.push_str(&format!("<errors: {:?}>", story.get_current_errors()));
        }
        out
    });
    match r {
        Ok(s) => s,
        Err(_) => "<PANIC>".to_string(),
    }
}

// ---------------- numeric / string fuzzer ----------------
#[derive(Clone, Debug, PartialEq)]
enum V {
    I(i32),
    F(f32),
    B(bool),
    S(String),
}

#[derive(Clone, Debug)]
enum E {
    Lit(V),
    Var(&'static str, V),
    Un(&'static str, Box<E>),
    Bin(&'static str, Box<E>, Box<E>),
    Call(&'static str, Vec<E>),
}

struct Rng(u64);
impl Rng {
    fn next(&mut self) -> u64 {
        self.0 = self.0.wrapping_mul(6364136223846793005).wrapping_add(1442695040888963407);
        self.0 >> 33
    }
    fn below(&mut self, n: u64) -> u64 {
        self.next() % n
    }
}

fn fmt_v(v: &V) -> String {
    match v {
        V::I(i) => i.to_string(),
        V::F(f) => format!("{}", f),
        V::B(b) => b.to_string(),
        V::S(s) => s.clone(),
    }
}

fn rank(v: &V) -> u8 {
    match v {
        V::B(_) => 0,
        V::I(_) => 1,
        V::F(_) => 2,
        V::S(_) => 4,
    }
}

fn to_i(v: &V) -> i32 {
    match v {
        V::B(b) => *b as i32,
        V::I(i) => *i,
        _ => unreachable!(),
    }
}
fn to_f(v: &V) -> f32 {
    match v {
        V::B(b) => *b as i32 as f32,
        V::I(i) => *i as f32,
        V::F(f) => *f,
        _ => unreachable!(),
    }
}

fn ev(e: &E) -> Option<V> {
    Some(match e {
        E::Lit(v) | E::Var(_, v) => v.clone(),
        E::Un(op, a) => {
            let a = ev(a)?;
            match (*op, &a) {
                (_, V::S(_)) => return None,
                ("-", V::F(f)) => V::F(-f),
                ("-", _) => V::I(to_i(&a).wrapping_neg()),
                ("not", V::F(f)) => V::B(*f == 0.0),
                ("not", _) => V::B(to_i(&a) == 0),
                _ => unreachable!(),
            }
        }
        E::Call(name, args) => {
            let a: Vec<V> = args.iter().map(ev).collect::<Option<Vec<_>>>()?;
            if a.iter().any(|v| matches!(v, V::S(_))) {
                return None;
            }
            match *name {
                "MIN" | "MAX" => {
                    if rank(&a[0]).max(rank(&a[1])) == 2 {
                        let (x, y) = (to_f(&a[0]), to_f(&a[1]));
                        V::F(if *name == "MIN" { x.min(y) } else { x.max(y) })
                    } else {
                        let (x, y) = (to_i(&a[0]), to_i(&a[1]));
                        V::I(if *name == "MIN" { x.min(y) } else { x.max(y) })
                    }
                }
                "INT" => match &a[0] {
                    V::F(f) => V::I(*f as i32),
                    o => V::I(to_i(o)),
                },
                "FLOAT" => V::F(to_f(&a[0])),
                "FLOOR" => match &a[0] {
                    V::F(f) => V::F(f.floor()),
                    o => V::I(to_i(o)),
                },
                "CEILING" => match &a[0] {
                    V::F(f) => V::F(f.ceil()),
                    o => V::I(to_i(o)),
                },
                _ => unreachable!(),
            }
        }
        E::Bin(op, a, b) => {
            let (a, b) = (ev(a)?, ev(b)?);
            let r = rank(&a).max(rank(&b));
            if r == 4 {
                let (x, y) = (fmt_v(&a), fmt_v(&b));
                match *op {
                    "+" => V::S(format!("{x}{y}")),
                    "==" => V::B(x == y),
                    "!=" => V::B(x != y),
                    "?" => V::B(x.contains(&y)),
                    "!?" => V::B(!x.contains(&y)),
                    _ => return None,
                }
            } else if r == 2 {
                let (x, y) = (to_f(&a), to_f(&b));
                match *op {
                    "+" => V::F(x + y),
                    "-" => V::F(x - y),
                    "*" => V::F(x * y),
                    "/" => {
                        if y == 0.0 {
                            return None;
                        }
                        V::F(x / y)
                    }
                    "%" => {
                        if y == 0.0 {
                            return None;
                        }
                        V::F(x % y)
                    }
                    "==" => V::B(x == y),
                    "!=" => V::B(x != y),
                    "<" => V::B(x < y),
                    ">" => V::B(x > y),
                    "<=" => V::B(x <= y),
                    ">=" => V::B(x >= y),
                    "&&" | "and" => V::B(x != 0.0 && y != 0.0),
                    "||" | "or" => V::B(x != 0.0 || y != 0.0),
                    _ => return None,
                }
            } else {
                let (x, y) = (to_i(&a), to_i(&b));
                match *op {
                    "+" => V::I(x.wrapping_add(y)),
                    "-" => V::I(x.wrapping_sub(y)),
                    "*" => V::I(x.wrapping_mul(y)),
                    "/" => V::I(x.checked_div(y)?),
                    "%" => V::I(x.checked_rem(y)?),
                    "==" => V::B(x == y),
                    "!=" => V::B(x != y),
                    "<" => V::B(x < y),
                    ">" => V::B(x > y),
                    "<=" => V::B(x <= y),
                    ">=" => V::B(x >= y),
                    "&&" | "and" => V::B(x != 0 && y != 0),
                    "||" | "or" => V::B(x != 0 || y != 0),
                    _ => return None,
                }
            }
        }
    })
}

fn tier(op: &str) -> u8 {
    match op {
        "&&" | "||" | "and" | "or" => 1,
        "==" | "!=" | "<" | ">" | "<=" | ">=" | "?" | "!?" => 2,
        "+" | "-" => 4,
        _ => 6,
    }
}

fn render(e: &E, rng: &mut Rng) -> String {
    match e {
        E::Lit(V::S(s)) => format!("\"{s}\""),
        E::Lit(V::F(f)) => format!("{:?}", f),
        E::Lit(v) => fmt_v(v),
        E::Var(n, _) => n.to_string(),
        E::Un(op, a) => {
            let inner = render(a, rng);
            let needs = matches!(**a, E::Bin(..));
            let sp = if *op == "not" { " " } else { "" };
            if needs {
                format!("{op}{sp}({inner})")
            } else {
                format!("{op}{sp}{inner}")
            }
        }
        E::Call(n, args) => {
            let a: Vec<String> = args.iter().map(|x| render(x, rng)).collect();
            format!("{n}({})", a.join(", "))
        }
        E::Bin(op, a, b) => {
            let side = |c: &E, rng: &mut Rng| {
                let s = render(c, rng);
                match c {
                    E::Bin(cop, ..) => {
                        // drop parens only where Ink and conventional precedence agree
                        let ok = tier(cop) > tier(op)
                            && !(tier(op) == 4 && tier(cop) == 4)
                            && !(tier(op) == 6)
                            && !(tier(op) == 2 && tier(cop) == 2);
                        if ok && rng.below(2) == 0 {
                            s
                        } else {
                            format!("({s})")
                        }
                    }
                    E::Un(..) if s.starts_with('-') && rng.below(2) == 0 => format!("({s})"),
                    _ => s,
                }
            };
            let l = side(a, rng);
            let r = side(b, rng);
            let sp = if rng.below(4) == 0 && !op.chars().next().unwrap().is_alphabetic() {
                ""
            } else {
                " "
            };
            format!("{l}{sp}{op}{sp}{r}")
        }
    }
}

fn gen_e(rng: &mut Rng, depth: u32, strings: bool) -> E {
    if depth == 0 || rng.below(5) == 0 {
        return match rng.below(if strings { 9 } else { 8 }) {
            0 => E::Lit(V::I(rng.below(9) as i32 - 2)),
            1 => E::Lit(V::F((rng.below(17) as f32) * 0.25)),
            2 => E::Lit(V::B(rng.below(2) == 0)),
            3 => E::Var("vi", V::I(7)),
            4 => E::Var("vf", V::F(2.5)),
            5 => E::Var("vt", V::B(true)),
            6 => E::Var("vn", V::I(-3)),
            7 => E::Var("vz", V::F(0.0)),
            _ => {
                if rng.below(2) == 0 {
                    E::Var("vs", V::S("ab1".into()))
                } else {
                    E::Lit(V::S(["a", "b1", "", "1", "true", "2.5", "x y"][rng.below(7) as usize].into()))
                }
            }
        };
    }
    match rng.below(10) {
        0 => E::Un(["-", "not"][rng.below(2) as usize], Box::new(gen_e(rng, depth - 1, strings))),
        1 => {
            let n = ["MIN", "MAX", "INT", "FLOAT", "FLOOR", "CEILING"][rng.below(6) as usize];
            let k = if n == "MIN" || n == "MAX" { 2 } else { 1 };
            E::Call(n, (0..k).map(|_| gen_e(rng, depth - 1, strings)).collect())
        }
        _ => {
            let ops = [
                "+", "-", "*", "/", "%", "==", "!=", "<", ">", "<=", ">=", "&&", "||", "and", "or", "+", "==", "?", "!?",
            ];
            let n = if strings { ops.len() } else { ops.len() - 2 };
            let op = ops[rng.below(n as u64) as usize];
            E::Bin(op, Box::new(gen_e(rng, depth - 1, strings)), Box::new(gen_e(rng, depth - 1, strings)))
        }
    }
}

#[test]
#[ignore = "exploration aid: differential fuzzer, prints mismatches"]
fn fuzz_numeric() {
    let prelude = "VAR vi = 7\nVAR vf = 2.5\nVAR vt = true\nVAR vn = -3\nVAR vz = 0.0\nVAR vs = \"ab1\"\n";
    let mut rng = Rng(0x1234_5678);
    let mut bad = 0;
    let mut checked = 0;
    for round in 0..400 {
        let mut exprs = Vec::new();
        while exprs.len() < 25 {
            let e = gen_e(&mut rng, 1 + (round % 4) as u32, round % 2 == 1);
            if let Some(v) = ev(&e) {
                if let V::F(f) = v {
                    if !f.is_finite() || f.abs() > 1.0e6 || (f * 1024.0).fract() != 0.0 {
                        continue;
                    }
                }
                let s = render(&e, &mut rng);
                exprs.push((s, fmt_v(&v)));
            }
        }
        let mut src = prelude.to_string();
        for (s, _) in &exprs {
            src.push_str(&format!("~ temp r = {s}\n[{{r}}]\n"));
            src.push_str("~ r = 0\n");
        }
        // temp redeclared repeatedly: use distinct names instead
        let mut src = prelude.to_string();
        for (i, (s, _)) in exprs.iter().enumerate() {
            if std::env::var("HUNT_INLINE").is_ok() && !s.contains("||") {
                src.push_str(&format!("[{{{s}}}]\n"));
            } else {
                src.push_str(&format!("~ temp r{i} = {s}\n[{{r{i}}}]\n"));
            }
        }
        let out = run_prog(&src);
        let lines: Vec<&str> = out.lines().collect();
        if lines.len() != exprs.len() {
            // find the culprit individually
            for (s, want) in &exprs {
                let got = run_prog(&format!("{prelude}~ temp r = {s}\n[{{r}}]\n"));
                checked += 1;
                if got.trim() != format!("[{want}]") {
                    bad += 1;
                    if bad < 60 {
                        println!("MISMATCH {s}\n   want [{want}]\n   got  {}", got.trim());
                    }
                }
            }
            continue;
        }
        for ((s, want), got) in exprs.iter().zip(lines) {
            checked += 1;
            if got != format!("[{want}]") {
                bad += 1;
                if bad < 60 {
                    println!("MISMATCH {s}\n   want [{want}]\n   got  {got}");
                }
            }
        }
    }
    println!("checked {checked}, mismatches {bad}");
}

// ---------------- list fuzzer ----------------
use std::collections::BTreeSet;

type Item = (i32, &'static str, &'static str); // value, origin, name
const DEFS: &[(&str, &[(&str, i32)])] = &[
    ("L", &[("a", 1), ("b", 2), ("c", 3)]),
    ("M", &[("x", 1), ("y", 2), ("z", 5)]),
    ("N", &[("p", 0), ("q", 1), ("r", 2)]),
];

#[derive(Clone, Debug, PartialEq)]
struct Lst {
    items: BTreeSet<Item>,
    names: Vec<&'static str>, // retained origin names, used when empty
}
impl Lst {
    fn origins(&self) -> Vec<&'static str> {
        let mut v: Vec<&'static str> = if self.items.is_empty() {
            self.names.clone()
        } else {
            self.items.iter().map(|i| i.1).collect()
        };
        v.sort();
        v.dedup();
        v
    }
    fn fresh(items: BTreeSet<Item>) -> Lst {
        Lst { items, names: vec![] }
    }
    fn copy_of(&self) -> Lst {
        Lst { items: self.items.clone(), names: self.origins() }
    }
    fn show(&self) -> String {
        self.items.iter().map(|i| i.2).collect::<Vec<_>>().join(", ")
    }
    // None when a tie makes the answer depend on iteration order in the reference engine
    fn min(&self) -> Option<Option<Item>> {
        let m = self.items.iter().next().cloned();
        if let Some(m) = m {
            if self.items.iter().filter(|i| i.0 == m.0).count() > 1 {
                return None;
            }
        }
        Some(m)
    }
    fn max(&self) -> Option<Option<Item>> {
        let m = self.items.iter().next_back().cloned();
        if let Some(m) = m {
            if self.items.iter().filter(|i| i.0 == m.0).count() > 1 {
                return None;
            }
        }
        Some(m)
    }
    fn minv(&self) -> i32 {
        self.items.iter().next().unwrap().0
    }
    fn maxv(&self) -> i32 {
        self.items.iter().next_back().unwrap().0
    }
}

#[derive(Clone, Debug)]
enum LV {
    L(Lst),
    I(i32),
    B(bool),
}

#[derive(Clone, Debug)]
enum LE {
    Lit(Vec<Item>),
    EmptyOf(&'static str),
    Var(&'static str, Lst),
    Int(i32),
    Bin(&'static str, Box<LE>, Box<LE>),
    Call(&'static str, Vec<LE>),
    FromInt(&'static str, Box<LE>),
    Not(Box<LE>),
}

fn all_items(origin: &str) -> Vec<Item> {
    let (n, items) = DEFS.iter().find(|d| d.0 == origin).unwrap();
    items.iter().map(|(name, v)| (*v, *n, *name)).collect()
}

fn lev(e: &LE) -> Option<LV> {
    Some(match e {
        LE::Lit(items) => LV::L(Lst::fresh(items.iter().cloned().collect())),
        LE::EmptyOf(o) => LV::L(Lst { items: BTreeSet::new(), names: vec![o] }),
        LE::Var(_, l) => LV::L(l.clone()),
        LE::Int(i) => LV::I(*i),
        LE::Not(a) => match lev(a)? {
            LV::L(l) => LV::I(l.items.is_empty() as i32),
            LV::I(i) => LV::B(i == 0),
            LV::B(b) => LV::B(!b),
        },
        LE::FromInt(o, a) => {
            let LV::I(n) = lev(a)? else { return None };
            let found: Vec<Item> = all_items(o).into_iter().filter(|i| i.0 == n).collect();
            LV::L(Lst::fresh(found.into_iter().collect()))
        }
        LE::Call(name, args) => {
            let a: Vec<LV> = args.iter().map(lev).collect::<Option<Vec<_>>>()?;
            let LV::L(l) = &a[0] else { return None };
            match *name {
                "LIST_COUNT" => LV::I(l.items.len() as i32),
                "LIST_VALUE" => LV::I(l.items.iter().next_back().map(|i| i.0).unwrap_or(0)),
                "LIST_MIN" => LV::L(Lst::fresh(l.min()?.into_iter().collect())),
                "LIST_MAX" => LV::L(Lst::fresh(l.max()?.into_iter().collect())),
                "LIST_ALL" => LV::L(Lst::fresh(
                    l.origins().iter().flat_map(|o| all_items(o)).collect(),
                )),
                "LIST_INVERT" => LV::L(Lst::fresh(
                    l.origins()
                        .iter()
                        .flat_map(|o| all_items(o))
                        .filter(|i| !l.items.contains(i))
                        .collect(),
                )),
                "LIST_RANGE" => {
                    if l.items.is_empty() {
                        return Some(LV::L(Lst::fresh(BTreeSet::new())));
                    }
                    let lo = match &a[1] {
                        LV::I(i) => *i,
                        LV::L(b) if !b.items.is_empty() => b.minv(),
                        _ => 0,
                    };
                    let hi = match &a[2] {
                        LV::I(i) => *i,
                        LV::L(b) if !b.items.is_empty() => b.maxv(),
                        _ => i32::MAX,
                    };
                    LV::L(Lst {
                        items: l.items.iter().filter(|i| i.0 >= lo && i.0 <= hi).cloned().collect(),
                        names: l.origins(),
                    })
                }
                _ => unreachable!(),
            }
        }
        LE::Bin(op, a, b) => {
            let (a, b) = (lev(a)?, lev(b)?);
            match (&a, &b) {
                (LV::L(x), LV::I(n)) if *op == "+" || *op == "-" => {
                    let mut out = BTreeSet::new();
                    for it in &x.items {
                        let t = if *op == "+" { it.0 + n } else { it.0 - n };
                        if let Some(f) = all_items(it.1).into_iter().find(|i| i.0 == t) {
                            out.insert(f);
                        }
                    }
                    LV::L(Lst::fresh(out))
                }
                (LV::L(x), LV::L(y)) => match *op {
                    "+" => {
                        let mut r = x.copy_of();
                        r.items.extend(y.items.iter().cloned());
                        LV::L(r)
                    }
                    "-" => {
                        let mut r = x.copy_of();
                        for i in &y.items {
                            r.items.remove(i);
                        }
                        LV::L(r)
                    }
                    "^" => LV::L(Lst::fresh(x.items.intersection(&y.items).cloned().collect())),
                    "?" | "!?" => {
                        let c = !x.items.is_empty() && !y.items.is_empty() && y.items.is_subset(&x.items);
                        LV::B(if *op == "?" { c } else { !c })
                    }
                    "==" => LV::B(x.items == y.items),
                    "!=" => LV::B(x.items != y.items),
                    ">" => LV::B(!x.items.is_empty() && (y.items.is_empty() || x.minv() > y.maxv())),
                    ">=" => LV::B(
                        !x.items.is_empty()
                            && (y.items.is_empty() || (x.minv() >= y.minv() && x.maxv() >= y.maxv())),
                    ),
                    "<" => LV::B(!y.items.is_empty() && (x.items.is_empty() || x.maxv() < y.minv())),
                    "<=" => LV::B(
                        !y.items.is_empty()
                            && (x.items.is_empty() || (x.maxv() <= y.maxv() && x.minv() <= y.minv())),
                    ),
                    "&&" => LV::B(!x.items.is_empty() && !y.items.is_empty()),
                    "||" => LV::B(!x.items.is_empty() || !y.items.is_empty()),
                    _ => return None,
                },
                (LV::I(x), LV::I(y)) => match *op {
                    "+" => LV::I(x + y),
                    "-" => LV::I(x - y),
                    "==" => LV::B(x == y),
                    "<" => LV::B(x < y),
                    ">" => LV::B(x > y),
                    _ => return None,
                },
                _ => return None,
            }
        }
    })
}

fn lrender(e: &LE) -> String {
    match e {
        LE::Lit(items) => {
            if items.is_empty() {
                "()".to_string()
            } else {
                format!("({})", items.iter().map(|i| i.2).collect::<Vec<_>>().join(", "))
            }
        }
        LE::EmptyOf(o) => format!("{o}()"),
        LE::Var(n, _) => n.to_string(),
        LE::Int(i) => i.to_string(),
        LE::Not(a) => match **a {
            LE::Var(..) => format!("not {}", lrender(a)),
            _ => format!("not ({})", lrender(a)),
        },
        LE::FromInt(o, a) => format!("{o}({})", lrender(a)),
        LE::Call(n, a) => format!("{n}({})", a.iter().map(lrender).collect::<Vec<_>>().join(", ")),
        LE::Bin(op, a, b) => {
            let w = |x: &LE| match x {
                LE::Bin(..) => format!("({})", lrender(x)),
                _ => lrender(x),
            };
            format!("{} {op} {}", w(a), w(b))
        }
    }
}

fn gen_list(rng: &mut Rng, d: u32) -> LE {
    if d == 0 || rng.below(4) == 0 {
        return match rng.below(8) {
            0 => LE::Lit(vec![]),
            1 => LE::EmptyOf(["L", "M", "N"][rng.below(3) as usize]),
            2 => LE::Var("vab", Lst::fresh([(1, "L", "a"), (2, "L", "b")].into_iter().collect())),
            3 => LE::Var("vmix", Lst::fresh([(3, "L", "c"), (1, "M", "x"), (2, "N", "r")].into_iter().collect())),
            4 => LE::Var("ve", Lst::fresh(BTreeSet::new())),
            5 => LE::Var("vfull", Lst::fresh(all_items("M").into_iter().collect())),
            _ => {
                let mut pool: Vec<Item> = DEFS.iter().flat_map(|d| all_items(d.0)).collect();
                let k = 1 + rng.below(4);
                let mut v = Vec::new();
                for _ in 0..k {
                    let i = rng.below(pool.len() as u64) as usize;
                    v.push(pool.remove(i));
                }
                LE::Lit(v) // deliberately in random (insertion) order
            }
        };
    }
    match rng.below(12) {
        0 | 1 => LE::Bin("+", Box::new(gen_list(rng, d - 1)), Box::new(gen_list(rng, d - 1))),
        2 | 3 => LE::Bin("-", Box::new(gen_list(rng, d - 1)), Box::new(gen_list(rng, d - 1))),
        4 => LE::Bin("^", Box::new(gen_list(rng, d - 1)), Box::new(gen_list(rng, d - 1))),
        5 => LE::Bin(["+", "-"][rng.below(2) as usize], Box::new(gen_list(rng, d - 1)), Box::new(gen_int(rng, d - 1))),
        6 => LE::Call(["LIST_MIN", "LIST_MAX"][rng.below(2) as usize], vec![gen_list(rng, d - 1)]),
        7 => LE::Call("LIST_ALL", vec![gen_list(rng, d - 1)]),
        8 => LE::Call("LIST_INVERT", vec![gen_list(rng, d - 1)]),
        9 => {
            let b = |rng: &mut Rng| if rng.below(2) == 0 { gen_int(rng, 0) } else { gen_list(rng, d - 1) };
            let (lo, hi) = (b(rng), b(rng));
            LE::Call("LIST_RANGE", vec![gen_list(rng, d - 1), lo, hi])
        }
        _ => LE::FromInt(["L", "M", "N"][rng.below(3) as usize], Box::new(gen_int(rng, d - 1))),
    }
}
fn gen_int(rng: &mut Rng, d: u32) -> LE {
    if d == 0 || rng.below(3) == 0 {
        return LE::Int(rng.below(7) as i32 - 1);
    }
    match rng.below(4) {
        0 => LE::Call("LIST_COUNT", vec![gen_list(rng, d - 1)]),
        1 => LE::Call("LIST_VALUE", vec![gen_list(rng, d - 1)]),
        2 => LE::Not(Box::new(gen_list(rng, d - 1))),
        _ => LE::Bin(["+", "-"][rng.below(2) as usize], Box::new(gen_int(rng, d - 1)), Box::new(gen_int(rng, d - 1))),
    }
}
fn gen_bool(rng: &mut Rng, d: u32) -> LE {
    let ops = ["?", "!?", "==", "!=", ">", ">=", "<", "<=", "&&", "||"];
    LE::Bin(ops[rng.below(ops.len() as u64) as usize], Box::new(gen_list(rng, d)), Box::new(gen_list(rng, d)))
}

#[test]
#[ignore = "exploration aid: differential fuzzer, prints mismatches"]
fn fuzz_lists() {
    let prelude = "LIST L = a, b, c\nLIST M = x, y, z=5\nLIST N = p=0, q, r\nVAR vab = (a, b)\nVAR vmix = (x, r, c)\nVAR ve = ()\nVAR vfull = (z, y, x)\n";
    let mut rng = Rng(0xfeed_beef);
    let (mut bad, mut checked) = (0, 0);
    for round in 0..2000 {
        let mut exprs = Vec::new();
        while exprs.len() < 20 {
            let d = 1 + (round % 3) as u32;
            let e = match rng.below(4) {
                0 => gen_int(&mut rng, d),
                1 => gen_bool(&mut rng, d - 1),
                _ => gen_list(&mut rng, d),
            };
            if let Some(v) = lev(&e) {
                let want = match v {
                    LV::L(l) => l.show(),
                    LV::I(i) => i.to_string(),
                    LV::B(b) => b.to_string(),
                };
                exprs.push((lrender(&e), want));
            }
        }
        for (s, want) in &exprs {
            let got = run_prog(&format!("{prelude}~ temp res = {s}\n[{{res}}]\n"));
            checked += 1;
            if got.trim() != format!("[{want}]") {
                bad += 1;
                if bad < 80 {
                    println!("MISMATCH {s}\n   want [{want}]\n   got  {}", got.trim());
                }
            }
        }
    }
    println!("checked {checked}, mismatches {bad}");
}

