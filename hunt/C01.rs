use bladeink::story::Story;
use bladeink_compiler::Compiler;
use std::panic::{catch_unwind, AssertUnwindSafe};

fn show(v: Option<bladeink::value_type::ValueType>) -> String {
    use bladeink::value_type::ValueType as V;
    match v {
        None => "None".into(),
        Some(V::Bool(b)) => format!("Bool({b})"),
        Some(V::Int(b)) => format!("Int({b})"),
        Some(V::Float(b)) => format!("Float({b})"),
        Some(V::String(b)) => format!("Str({:?})", b.string),
        Some(V::DivertTarget(p)) => format!("Divert({})", p),
        Some(_) => "other".into(),
    }
}

/// Plays `ink` along `path`; returns a transcript.
fn play(ink: &str, path: &[usize], vars: &[&str], visits: &[&str]) -> String {
    let ink = ink.to_string();
    let path = path.to_vec();
    let vars: Vec<String> = vars.iter().map(|s| s.to_string()).collect();
    let visits: Vec<String> = visits.iter().map(|s| s.to_string()).collect();
    let r = catch_unwind(AssertUnwindSafe(move || {
        let mut out = String::new();
        let json = match Compiler::new().compile(&ink) {
            Ok(j) => j,
            Err(e) => return format!("COMPILE ERROR: {e}\n"),
        };
        let mut story = match Story::new(&json) {
            Ok(s) => s,
            Err(e) => return format!("LOAD ERROR: {e}\n"),
        };
        let mut pi = 0;
        let mut steps = 0;
        loop {
            while story.can_continue() {
                steps += 1;
                if steps > 40 {
                    out.push_str("FUEL\n");
                    return out;
                }
                match story.cont() {
                    Ok(l) => {
                        out.push_str(&format!("L:{:?}", l));
                        let tags = story.get_current_tags().unwrap_or_default();
                        if !tags.is_empty() {
                            out.push_str(&format!(" #{:?}", tags));
                        }
                        out.push('\n');
                    }
                    Err(e) => {
                        out.push_str(&format!("ERR:{e}\n"));
                        return out;
                    }
                }
                if story.has_error() {
                    out.push_str(&format!("ERRORS:{:?}\n", story.get_current_errors()));
                }
                if !story.get_current_warnings().is_empty() {
                    out.push_str(&format!("WARN:{:?}\n", story.get_current_warnings()));
                }
            }
            let ch = story.get_current_choices();
            for (i, c) in ch.iter().enumerate() {
                out.push_str(&format!("C{}:{:?}", i, c.text));
                if !c.tags.is_empty() {
                    out.push_str(&format!(" #{:?}", c.tags));
                }
                out.push('\n');
            }
            if ch.is_empty() {
                out.push_str("END\n");
                break;
            }
            if pi >= path.len() {
                out.push_str("STOP\n");
                break;
            }
            let idx = path[pi];
            pi += 1;
            if idx >= ch.len() {
                out.push_str("BADIDX\n");
                break;
            }
            out.push_str(&format!("> {}\n", idx));
            if let Err(e) = story.choose_choice_index(idx) {
                out.push_str(&format!("CHOOSE ERR:{e}\n"));
                break;
            }
        }
        for v in &vars {
            out.push_str(&format!("V {}={}\n", v, show(story.get_variable(v))));
        }
        for v in &visits {
            out.push_str(&format!(
                "N {}={:?}\n",
                v,
                story.get_visit_count_at_path_string(v).ok()
            ));
        }
        out
    }));
    match r {
        Ok(s) => s,
        Err(e) => {
            let msg = if let Some(s) = e.downcast_ref::<String>() {
                s.clone()
            } else if let Some(s) = e.downcast_ref::<&str>() {
                s.to_string()
            } else {
                "?".into()
            };
            format!("PANIC: {msg}\n")
        }
    }
}

/// Exploration: HUNT_DIR=/tmp/hunt ; every *.ink there is played. A first line of the form
/// `// path: 0 1 2` gives the choices; `// vars: a b`, `// visits: k k.s`.
#[test]
fn explore() {
    let Ok(dir) = std::env::var("HUNT_DIR") else {
        return;
    };
    let only = std::env::var("HUNT_ONLY").ok();
    let mut files: Vec<_> = std::fs::read_dir(&dir)
        .unwrap()
        .filter_map(|e| e.ok())
        .map(|e| e.path())
        .filter(|p| p.extension().map(|e| e == "ink").unwrap_or(false))
        .collect();
    files.sort();
    for f in files {
        if let Some(o) = &only {
            if !f.to_string_lossy().contains(o.as_str()) {
                continue;
            }
        }
        let src = std::fs::read_to_string(&f).unwrap();
        let mut paths: Vec<Vec<usize>> = vec![];
        let mut vars: Vec<String> = vec![];
        let mut visits: Vec<String> = vec![];
        for l in src.lines() {
            if let Some(r) = l.strip_prefix("// path:") {
                paths.push(r.split_whitespace().map(|x| x.parse().unwrap()).collect());
            }
            if let Some(r) = l.strip_prefix("// vars:") {
                vars = r.split_whitespace().map(|s| s.to_string()).collect();
            }
            if let Some(r) = l.strip_prefix("// visits:") {
                visits = r.split_whitespace().map(|s| s.to_string()).collect();
            }
        }
        if paths.is_empty() {
            paths.push(vec![]);
        }
        for p in paths {
            println!("==== {} path {:?}", f.file_name().unwrap().to_string_lossy(), p);
            let v: Vec<&str> = vars.iter().map(|s| s.as_str()).collect();
            let n: Vec<&str> = visits.iter().map(|s| s.as_str()).collect();
            print!("{}", play(&src, &p, &v, &n));
        }
    }
}

/// Transcript helper for the finding tests: joins expected lines.
fn t(lines: &[&str]) -> String {
    let mut s = String::new();
    for l in lines {
        s.push_str(l);
        s.push('\n');
    }
    s
}

// ---------------------------------------------------------------------------
// Finding 1: weave nesting / choice bodies are decided by source indentation.
// Ink ignores indentation: everything after a choice line up to the next
// choice/gather of the same or a shallower level is that choice's body.
// ---------------------------------------------------------------------------
#[test]
fn finding1_unindented_choice_body_splits_the_choice_set() {
    let ink = "What now?\n* Go left\nYou go left.\n* Go right\nYou go right.\n- The end.\n-> END\n";
    assert_eq!(
        play(ink, &[1], &[], &[]),
        t(&[
            r#"L:"What now?\n""#,
            r#"C0:"Go left""#,
            r#"C1:"Go right""#,
            "> 1",
            r#"L:"Go right\n""#,
            r#"L:"You go right.\n""#,
            r#"L:"The end.\n""#,
            "END",
        ])
    );
    // same root cause: `**` written without indentation
    let ink = "* one\n** nested\n* two\n- end\n-> END\n";
    assert_eq!(
        play(ink, &[], &[], &[]),
        t(&[r#"L:"""#, r#"C0:"one""#, r#"C1:"two""#, "STOP"])
    );
}

// ---------------------------------------------------------------------------
// Finding 2: `start[choice-only]end` choice text is assembled with heuristics
// (quotes pulled from `end` into the choice text, blanks inserted/removed).
// ---------------------------------------------------------------------------
#[test]
fn finding2_bracket_choice_text_is_assembled_with_heuristics() {
    // the example of the Ink manual
    let ink = "* \"I am somewhat tired[.\"],\" I repeated.\n- -> END\n";
    assert_eq!(
        play(ink, &[0], &[], &[]),
        t(&[
            r#"L:"""#,
            r#"C0:"\"I am somewhat tired.\"""#,
            "> 0",
            r#"L:"\"I am somewhat tired,\" I repeated.\n""#,
            "END",
        ])
    );
    let ink = "* X[Y]Z\n- -> END\n";
    assert_eq!(
        play(ink, &[0], &[], &[]),
        t(&[r#"L:"""#, r#"C0:"XY""#, "> 0", r#"L:"XZ\n""#, "END"])
    );
}

// ---------------------------------------------------------------------------
// Finding 3: an inline conditional inside choice text is shown verbatim.
// ---------------------------------------------------------------------------
#[test]
fn finding3_inline_conditional_in_choice_text_is_not_evaluated() {
    let ink = "VAR x = 1\n* final {x: yes}\n* second {x: yes|no} tail\n- -> END\n";
    assert_eq!(
        play(ink, &[], &[], &[]),
        t(&[
            r#"L:"""#,
            r#"C0:"final yes""#,
            r#"C1:"second yes tail""#,
            "STOP"
        ])
    );
}

// ---------------------------------------------------------------------------
// Finding 4: the line end of a choice line is lost when the first (only) body
// line is a divert.
// ---------------------------------------------------------------------------
#[test]
fn finding4_newline_after_choice_line_lost_before_divert_on_next_line() {
    let ink = "* [opt] picked\n  -> after\n== after\nafter\n-> END\n";
    assert_eq!(
        play(ink, &[0], &[], &[]),
        t(&[
            r#"L:"""#,
            r#"C0:"opt""#,
            "> 0",
            r#"L:"picked\n""#,
            r#"L:"after\n""#,
            "END",
        ])
    );
    // variant: `-> END` / `-> DONE` on the next line
    let ink = "* a choice\n  -> END\n";
    assert_eq!(
        play(ink, &[0], &[], &[]),
        t(&[r#"L:"""#, r#"C0:"a choice""#, "> 0", r#"L:"a choice\n""#, "END"])
    );
}

// ---------------------------------------------------------------------------
// Finding 5: `->-> target` is compiled as a plain `-> target`: the tunnel is
// not popped.
// ---------------------------------------------------------------------------
#[test]
fn finding5_tunnel_onwards_with_target_does_not_pop_the_tunnel() {
    let ink = "-> outer ->\nend main\n-> END\n== outer\n-> inner ->\nafter inner\n->->\n== inner\nin inner\n->-> over\n== over\nover\n->->\n";
    assert_eq!(
        play(ink, &[], &[], &[]),
        t(&[
            r#"L:"in inner\n""#,
            r#"L:"over\n""#,
            r#"L:"end main\n""#,
            "END",
        ])
    );
}

// ---------------------------------------------------------------------------
// Finding 6: the target of TURNS_SINCE is only flagged for turn counting when
// the call sits in a few kinds of places and names a knot/stitch/bare label.
// Elsewhere the story aborts with "TURNS_SINCE() for target (..) unknown".
// ---------------------------------------------------------------------------
#[test]
fn finding6_turns_since_target_is_not_flagged_for_turn_counting() {
    // in choice text
    let ink = "-> k\n== k\nhello\n* choice {TURNS_SINCE(-> k)}\n  -> END\n";
    assert_eq!(
        play(ink, &[], &[], &[]),
        t(&[r#"L:"hello\n""#, r#"C0:"choice 0""#, "STOP"])
    );
    // in a branch of a multi-line sequence
    let ink = "-> k\n== k\n{stopping:\n- first {TURNS_SINCE(-> k)}\n- second\n}\n-> END\n";
    assert_eq!(play(ink, &[], &[], &[]), t(&[r#"L:"first 0\n""#, "END"]));
    // labelled choice named by its qualified path
    let ink = "-> k\n== k\n* (c) choice\n  -> other\n== other\n{TURNS_SINCE(-> k.c)}\n-> END\n";
    assert_eq!(
        play(ink, &[0], &[], &[]),
        t(&[
            r#"L:"""#,
            r#"C0:"choice""#,
            "> 0",
            r#"L:"choice\n""#,
            r#"L:"0\n""#,
            "END"
        ])
    );
}

// ---------------------------------------------------------------------------
// Further observations (not among the six reported findings, distinct causes)
// ---------------------------------------------------------------------------

/// `{stitch.label}` written in a sibling stitch reads 0 (path left unresolved).
#[test]
fn extra_read_count_of_stitch_label_from_sibling_stitch_is_zero() {
    let ink = "-> k\n== k\n= first\n- (g) -> second\n= second\n{k.first.g} {first.g}\n-> END\n";
    assert_eq!(play(ink, &[], &[], &[]), t(&[r#"L:"1 1\n""#, "END"]));
}

/// A tunnel on a choice line is rejected / leaks into the choice text.
#[test]
fn extra_tunnel_on_choice_line() {
    let ink = "* [x] -> shop -> main\n== main\nmain\n-> END\n== shop\nshop\n->->\n";
    assert_eq!(
        play(ink, &[0], &[], &[]),
        t(&[
            r#"L:"""#,
            r#"C0:"x""#,
            "> 0",
            r#"L:"shop\n""#,
            r#"L:"main\n""#,
            "END"
        ])
    );
}
